"""C01 - conversions between representations preserve the tensor."""

import itertools
from math import prod

import numpy as np

from mc import holders as H
from mc import observe as O
from mc import refmodel as rm
from mc import space
from mc.engine import exc_symptom, short_tb

ID = "C01"
RULE = ("product explorer over (holder of an explicit small array) x (conversion).  Arrays carry distinct "
        "signed odd integers in the non-zero cells so that a misplaced entry is visible; the matricized "
        "forms are compared with the explicit (l_R, l_C) index formula of mc/refmodel.py.  Non-trivial: "
        ">= 2 cells, >= 1 non-zero and, for matricizations, a split with >= 2 modes.")
ASSUMPTIONS = ["reference semantics in mc/refmodel.py", "values are small integers (exact arithmetic)",
               "objects observed through their attributes (data/subs/vals/weights/factor_matrices)"]
BOUNDS = {
    "quick": "shapes order<=3,size<=3,cells<=8 (all zero patterns for <=6 cells, 8 classes beyond) + 4-way "
             "(2,1,2,2),(2,2,2,2) generic; stored orders all k! for k<=3 else 4; every ordered partition (R,C) "
             "incl. empty sides + fc/bc/t per mode; Kruskal ranks 1-3 x weight patterns; Tucker core sizes 1..2; "
             "sum of 1-3 mixed parts",
    "thorough": "shapes order<=4,size<=3,cells<=24 + 5-way 2-sized; orders all k! for k<=4; same conversions",
}
CHUNK = 20


def _shapes(tier):
    if tier == "thorough":
        return space.shapes(4, 3, 24) + [(2, 2, 2, 2, 2), (2, 1, 2, 1, 2)]
    return space.shapes(3, 3, 8) + [(2, 1, 2, 2), (2, 2, 2, 2)]


def gen_cases(tier, seed):
    thorough = tier == "thorough"
    shapes = _shapes(tier)
    for s in shapes:
        n = prod(s)
        for pat in space.patterns(n, 6):
            yield {"check": "dense_sparse", "shape": list(s), "pat": list(pat), "vseed": seed,
                   "orders_upto": 4 if thorough else 3}
    for s in shapes:
        n = prod(s)
        pats = [tuple([1] * n)]
        if n >= 2:
            pats.append(tuple(1 if i % 2 == 0 else 0 for i in range(n)))
        for pat in pats:
            yield {"check": "tenmat", "shape": list(s), "pat": list(pat), "vseed": seed}
        if n >= 2:
            yield {"check": "tenmat", "shape": list(s), "pat": list(pats[0]), "vseed": seed, "grown": True}
    for s in shapes:
        n = prod(s)
        for pat in space.patterns(n, 4 if len(s) >= 3 else 6):
            k = sum(pat)
            ords = space.orders(k, 3) if len(s) <= 3 else space.orders(k, 2)
            for o in ords:
                yield {"check": "sptenmat", "shape": list(s), "pat": list(pat), "vseed": seed, "order": list(o)}
    # Kruskal
    kshapes = [s for s in shapes if prod(s) <= (24 if thorough else 12)] + [(2, 3, 4), (4, 3, 2), (3, 2, 2, 2)]
    for s in kshapes:
        for R in (1, 2, 3):
            wpats = list(itertools.product((2.0, -1.0, 0.0), repeat=R)) if R <= 2 else [
                (2.0, -1.0, 3.0), (1.0, 1.0, 1.0), (0.0, -2.0, 1.0)]
            for w in wpats:
                yield {"check": "kruskal", "h": {"kind": "ktensor", "shape": list(s), "rank": R,
                                                 "weights": list(w), "salt": seed, "vseed": seed}}
    # Tucker
    for s in kshapes:
        for cs in itertools.product((1, 2), repeat=len(s)):
            for core in ("dense", "sparse"):
                ncore = prod(cs)
                cpats = [None] if core == "dense" else [None, [1 if i % 2 == 0 else 0 for i in range(ncore)],
                                                        [0] * ncore]
                for cp in cpats:
                    yield {"check": "tucker", "h": {"kind": "ttensor", "shape": list(s), "core_shape": list(cs),
                                                    "core": core, "core_pat": cp, "salt": seed, "vseed": seed}}
    # sums
    for s in [x for x in kshapes if prod(x) <= 12]:
        n = prod(s)
        parts_pool = [
            {"kind": "tensor", "shape": list(s), "vseed": seed},
            {"kind": "sptensor", "shape": list(s), "pat": [1 if i % 2 else 0 for i in range(n)], "vseed": seed + 1,
             "order": None},
            {"kind": "ktensor", "shape": list(s), "rank": 2, "weights": [2.0, -1.0], "salt": 1, "vseed": seed},
            {"kind": "ttensor", "shape": list(s), "core_shape": [1] * len(s), "core": "dense", "core_pat": None,
             "salt": 2, "vseed": seed},
            # a second sparse part whose stored positions overlap the first one's (sums of sparse parts only)
            {"kind": "sptensor", "shape": list(s), "pat": [1 if i % 3 else 0 for i in range(n)], "vseed": seed + 2,
             "order": list(range(sum(1 for i in range(n) if i % 3) - 1, -1, -1))},
        ]
        for k in (1, 2, 3):
            for combo in itertools.permutations(range(len(parts_pool)), k):
                yield {"check": "sum", "h": {"kind": "sumtensor", "parts": [parts_pool[i] for i in combo]}}


def run_case(case, ctx):
    globals()["_run_" + case["check"]](case, ctx)


class Probe:
    """Calls an operation, reports exceptions, compares with the reference."""

    def __init__(self, ctx, case):
        self.ctx, self.case = ctx, case

    def call(self, op, f, variant=""):
        self.ctx.tick()
        try:
            return True, f()
        except Exception as e:  # noqa: BLE001
            self.ctx.fail(op, exc_symptom(e), short_tb(e), variant=variant, case=self.case)
            return False, None

    def expect_array(self, op, res, want, variant="", kind=None):
        try:
            got = O.dense_of(res)
        except Exception as e:  # noqa: BLE001
            self.ctx.fail(op, "malformed_result", f"{type(e).__name__}: {e}", variant=variant, case=self.case)
            return False
        if kind is not None and O.kind_of(res) != kind:
            self.ctx.fail(op, "wrong_type", f"{O.kind_of(res)} != {kind}", variant=variant, case=self.case)
            return False
        if not rm.same(got, want):
            self.ctx.fail(op, "wrong_value", f"got={np.asarray(got).tolist()} want={np.asarray(want).tolist()}",
                          variant=variant, case=self.case)
            return False
        return True

    def expect(self, op, cond, symptom, detail="", variant=""):
        if not cond:
            self.ctx.fail(op, symptom, detail, variant=variant, case=self.case)
        return cond

    def after_edit(self, op, res, src, want, variant=""):
        """depth 2: write to every stored value of a conversion's result in place; the source of the conversion
        must keep denoting the array it denoted (a conversion result is a value of its own, not a window)."""
        self.ctx.tick()
        try:
            if isinstance(res, np.ndarray):
                buf = res
            elif O.kind_of(res) == "tensor":
                buf = res.data
            elif O.kind_of(res) == "sptensor":
                buf = res.vals
            else:
                return True
            if buf.size == 0 or not buf.flags.writeable:
                return True
            buf[...] = buf + 1
        except Exception:  # noqa: BLE001
            return True
        return self.expect_array(op, src, want, variant=(variant + ":" if variant else "") + "source_after_write_to_result")


def _run_dense_sparse(case, ctx):
    import pyttb as ttb

    shape = tuple(case["shape"])
    base = {"shape": case["shape"], "pat": case["pat"], "vseed": case["vseed"]}
    A = H.ref_array(dict(base, kind="tensor"))
    k = int(np.count_nonzero(A))
    ctx.state()
    if A.size >= 2 and k >= 1:
        ctx.nontriv()
    p = Probe(ctx, case)
    T = H.build(dict(base, kind="tensor"))
    p.expect_array("tensor", T, A, kind="tensor")
    # dense -> sparse
    ok, S = p.call("tensor.to_sptensor", lambda: T.to_sptensor())
    if ok:
        probs = O.wf_sptensor(S)
        p.expect("tensor.to_sptensor", not probs, "malformed:" + ",".join(probs), str(probs))
        if not probs:
            p.expect_array("tensor.to_sptensor", S, A, kind="sptensor")
            p.expect("tensor.to_sptensor", O.pyshape(S.shape) == shape, "wrong_shape", str(S.shape))
            p.expect("tensor.to_sptensor", S.nnz == k, "wrong_nnz", f"{S.nnz}!={k}")
            for nm in ("full", "to_tensor"):
                ok2, B = p.call("sptensor." + nm, lambda: getattr(S, nm)(), variant="roundtrip")
                if ok2:
                    p.expect_array("sptensor." + nm, B, A, variant="roundtrip", kind="tensor")
    ok, fv = p.call("tensor.find", lambda: T.find())
    if ok:
        subs, vals = fv
        try:
            good = rm.same(O.scatter(shape, subs, vals), A) and len(vals) == k
        except Exception:  # noqa: BLE001
            good = False
        p.expect("tensor.find", good, "wrong_value", f"subs={np.asarray(subs).tolist()} vals={np.asarray(vals).tolist()}")
    ok, nn = p.call("tensor.nnz", lambda: T.nnz)
    if ok:
        p.expect("tensor.nnz", nn == k, "wrong_nnz", f"{nn}!={k}")
    for nm in ("full", "double", "copy"):
        ok, B = p.call("tensor." + nm, lambda: getattr(T, nm)())
        if ok:
            p.expect_array("tensor." + nm, B, A)
            p.after_edit("tensor." + nm, B, T, A)
    # non-initial state: the same dense tensor reached by growth (C-ordered buffer), then converted
    if A.size >= 2:
        Tg = H.build(dict(base, kind="tensor", grown=True))
        if p.expect_array("tensor", Tg, A, kind="tensor", variant="grown"):
            ok, S = p.call("tensor.to_sptensor", lambda: Tg.to_sptensor(), variant="grown")
            if ok:
                probs = O.wf_sptensor(S)
                p.expect("tensor.to_sptensor", not probs, "malformed:" + ",".join(probs), str(probs), "grown")
                if not probs:
                    p.expect_array("tensor.to_sptensor", S, A, kind="sptensor", variant="grown")
                    p.expect("tensor.to_sptensor", S.nnz == k, "wrong_nnz", f"{S.nnz}!={k}", "grown")
            ok, fv = p.call("tensor.find", lambda: Tg.find(), variant="grown")
            if ok:
                try:
                    good = rm.same(O.scatter(shape, fv[0], fv[1]), A) and len(fv[1]) == k
                except Exception:  # noqa: BLE001
                    good = False
                p.expect("tensor.find", good, "wrong_value", f"subs={np.asarray(fv[0]).tolist()} vals={np.asarray(fv[1]).tolist()}",
                         "grown")
            for nm in ("full", "double", "copy"):
                ok, B = p.call("tensor." + nm, lambda: getattr(Tg, nm)(), variant="grown")
                if ok:
                    p.expect_array("tensor." + nm, B, A, variant="grown")
    # sparse holders in every stored order
    for o in space.orders(k, case.get("orders_upto", 3)):
        hd = dict(base, kind="sptensor", order=list(o))
        sub = dict(case, order=list(o))
        q = Probe(ctx, sub)
        ctx.state()
        S = H.build(hd)
        q.expect_array("sptensor", S, A, kind="sptensor")
        for nm, kind in (("full", "tensor"), ("to_tensor", "tensor"), ("double", "ndarray"), ("copy", "sptensor")):
            ok, B = q.call("sptensor." + nm, lambda: getattr(S, nm)())
            if ok:
                q.expect_array("sptensor." + nm, B, A, kind=kind)
                ctx.outcome(O.dense_of(B)) if nm == "full" else None
                q.after_edit("sptensor." + nm, B, S, A)
        ok, nn = q.call("sptensor.nnz", lambda: S.nnz)
        if ok:
            q.expect("sptensor.nnz", nn == k, "wrong_nnz", f"{nn}!={k}")
        ok, fv = q.call("sptensor.find", lambda: S.find())
        if ok:
            try:
                good = rm.same(O.scatter(shape, fv[0], fv[1]), A)
            except Exception:  # noqa: BLE001
                good = False
            q.expect("sptensor.find", good, "wrong_value", "")
        # sparse -> dense -> sparse
        ok, B = q.call("sptensor.full", lambda: S.full().to_sptensor(), variant="roundtrip")
        if ok:
            probs = O.wf_sptensor(B)
            q.expect("sptensor.full", not probs, "malformed:" + ",".join(probs), variant="roundtrip")
            if not probs:
                q.expect_array("sptensor.full", B, A, variant="roundtrip")
        if len(shape) == 2:
            ok, M = q.call("sptensor.spmatrix", lambda: S.spmatrix())
            if ok:
                q.expect_array("sptensor.spmatrix", M, A)
                q.expect("sptensor.spmatrix", M.nnz == k, "wrong_nnz", f"{M.nnz}!={k}")
    # constructor from data in C order and with an explicit shape
    ok, B = p.call("tensor.__init__", lambda: ttb.tensor(np.ascontiguousarray(A)), variant="c_order")
    if ok:
        p.expect_array("tensor.__init__", B, A, variant="c_order")
    ok, B = p.call("tensor.__init__", lambda: ttb.tensor(np.array(rm.vals_f(A)), shape), variant="vector+shape")
    if ok:
        p.expect_array("tensor.__init__", B, A, variant="vector+shape")


def _partition_variants(N):
    """(variant name, kwargs builder, expected R, expected C)"""
    out = []
    for R, C in space.ordered_partitions(N):
        out.append(("both", {"rdims": np.array(R, dtype=int), "cdims": np.array(C, dtype=int)}, R, C))
    for R in space.ordered_subselections(N, 0):
        rest = tuple(i for i in range(N) if i not in R)
        out.append(("rdims_only", {"rdims": np.array(R, dtype=int)}, tuple(R), rest))
        out.append(("cdims_only", {"cdims": np.array(R, dtype=int)}, rest, tuple(R)))
    for n in range(N):
        out.append(("fc", {"rdims": np.array([n]), "cdims_cyclic": "fc"}, (n,),
                    tuple(list(range(n + 1, N)) + list(range(0, n)))))
        out.append(("bc", {"rdims": np.array([n]), "cdims_cyclic": "bc"}, (n,),
                    tuple(list(range(n - 1, -1, -1)) + list(range(N - 1, n, -1)))))
        out.append(("t", {"rdims": np.array([n]), "cdims_cyclic": "t"},
                    tuple(i for i in range(N) if i != n), (n,)))
    return out


def _kw_json(kw):
    return {k: (v.tolist() if isinstance(v, np.ndarray) else v) for k, v in kw.items()}


def _check_tenmat(p, op, M, A, R, C, variant):
    shape = A.shape
    want = rm.matricize(A, R, C)
    if not p.expect(op, O.kind_of(M) == "tenmat", "wrong_type", O.kind_of(M), variant):
        return False
    ok = p.expect_array(op, M, want, variant=variant)
    ok &= p.expect(op, O.pyshape(M.tshape) == shape, "wrong_tshape", str(M.tshape), variant)
    ok &= p.expect(op, tuple(int(i) for i in M.rindices) == tuple(R) and tuple(int(i) for i in M.cindices) == tuple(C),
                   "wrong_split", f"{M.rindices},{M.cindices} want {R},{C}", variant)
    ok &= p.expect(op, O.pyshape(M.shape) == want.shape, "wrong_shape", f"{M.shape} want {want.shape}", variant)
    return ok


def _run_tenmat(case, ctx):
    import pyttb as ttb

    shape = tuple(case["shape"])
    N = len(shape)
    hd = {"kind": "tensor", "shape": case["shape"], "pat": case["pat"], "vseed": case["vseed"],
          "grown": bool(case.get("grown"))}
    A = H.ref_array(hd)
    ctx.state()
    if "variant" in case:
        variants = [v for v in _partition_variants(N) if v[0] == case["variant"] and _kw_json(v[1]) == case["kw"]]
    else:
        variants = _partition_variants(N)
    for vname, kw, R, C in variants:
        sub = dict(case, variant=vname, kw=_kw_json(kw))
        p = Probe(ctx, sub)
        if N >= 2 and A.size >= 2:
            ctx.nontriv()
        for copy in (True, False):
            T = H.build(hd)
            v = vname + ("" if copy else "+nocopy")
            ok, M = p.call("tensor.to_tenmat", lambda: T.to_tenmat(copy=copy, **kw), variant=v)
            if not ok:
                continue
            if not _check_tenmat(p, "tensor.to_tenmat", M, A, R, C, v):
                continue
            ctx.outcome(M.data)
            for cp in (True, False):
                ok, B = p.call("tenmat.to_tensor", lambda: M.to_tensor(copy=cp), variant=v)
                if ok:
                    p.expect_array("tenmat.to_tensor", B, A, variant=v, kind="tensor")
                    p.expect("tenmat.to_tensor", O.pyshape(B.shape) == shape, "wrong_shape", str(B.shape), v)
                    if cp and copy and B.data.size:
                        # depth 2: edit the converted tensor in place; the matricized form must keep denoting A
                        B.data[...] = B.data + 1.0
                        p.expect_array("tenmat.to_tensor", M, rm.matricize(A, R, C), variant=v + ":tenmat_after_write_to_result")
            if copy and T.data.size:
                # depth 2: edit the source tensor in place; a copying conversion must not follow it
                T.data[...] = T.data + 1.0
                p.expect_array("tensor.to_tenmat", M, rm.matricize(A, R, C), variant=v + ":after_write_to_source")
            if copy:
                ok, D = p.call("tenmat.double", lambda: M.double(), variant=v)
                if ok:
                    p.expect_array("tenmat.double", D, rm.matricize(A, R, C), variant=v)
                ok, Mt = p.call("tenmat.ctranspose", lambda: M.ctranspose(), variant=v)
                if ok:
                    _check_tenmat(p, "tenmat.ctranspose", Mt, A, C, R, v)
                ok, Mc = p.call("tenmat.copy", lambda: M.copy(), variant=v)
                if ok:
                    _check_tenmat(p, "tenmat.copy", Mc, A, R, C, v)
        if vname == "both":
            # explicit constructor from matrix data
            want = rm.matricize(A, R, C)
            ok, M = p.call("tenmat.__init__", lambda: ttb.tenmat(np.asfortranarray(want.copy()), np.array(R, dtype=int),
                                                                 np.array(C, dtype=int), shape), variant=vname)
            if ok and _check_tenmat(p, "tenmat.__init__", M, A, R, C, vname):
                ok, B = p.call("tenmat.to_tensor", lambda: M.to_tensor(), variant="ctor")
                if ok:
                    p.expect_array("tenmat.to_tensor", B, A, variant="ctor")
            ok, M = p.call("tenmat.__init__", lambda: ttb.tenmat(np.ascontiguousarray(want.copy()), np.array(R, dtype=int),
                                                                 np.array(C, dtype=int), shape), variant="c_order")
            if ok:
                _check_tenmat(p, "tenmat.__init__", M, A, R, C, "c_order")


def _check_sptenmat(p, op, M, A, R, C, variant, k):
    want = rm.matricize(A, R, C)
    if not p.expect(op, O.kind_of(M) == "sptenmat", "wrong_type", O.kind_of(M), variant):
        return False
    probs = O.wf_sptenmat(M, allow_explicit_zero=False)
    if not p.expect(op, not probs, "malformed:" + ",".join(probs), str(probs), variant):
        return False
    ok = p.expect_array(op, M, want, variant=variant)
    ok &= p.expect(op, O.pyshape(M.tshape) == A.shape, "wrong_tshape", str(M.tshape), variant)
    ok &= p.expect(op, tuple(int(i) for i in M.rdims) == tuple(R) and tuple(int(i) for i in M.cdims) == tuple(C),
                   "wrong_split", f"{M.rdims},{M.cdims} want {R},{C}", variant)
    ok &= p.expect(op, O.pyshape(M.shape) == want.shape, "wrong_shape", f"{M.shape} want {want.shape}", variant)
    ok &= p.expect(op, M.nnz == k, "wrong_nnz", f"{M.nnz}!={k}", variant)
    return ok


def _run_sptenmat(case, ctx):
    import pyttb as ttb
    from scipy import sparse

    shape = tuple(case["shape"])
    N = len(shape)
    hd = {"kind": "sptensor", "shape": case["shape"], "pat": case["pat"], "vseed": case["vseed"],
          "order": case["order"]}
    A = H.ref_array(hd)
    k = int(np.count_nonzero(A))
    ctx.state()
    if "variant" in case:
        variants = [v for v in _partition_variants(N) if v[0] == case["variant"] and _kw_json(v[1]) == case["kw"]]
    else:
        variants = _partition_variants(N)
    for vname, kw, R, C in variants:
        sub = dict(case, variant=vname, kw=_kw_json(kw))
        p = Probe(ctx, sub)
        if N >= 2 and k >= 1 and A.size >= 2:
            ctx.nontriv()
        S = H.build(hd)
        ok, M = p.call("sptensor.to_sptenmat", lambda: S.to_sptenmat(**kw), variant=vname)
        if not ok or not _check_sptenmat(p, "sptensor.to_sptenmat", M, A, R, C, vname, k):
            continue
        ctx.outcome(O.dense_of(M))
        ok, B = p.call("sptenmat.to_sptensor", lambda: M.to_sptensor(), variant=vname)
        if ok:
            probs = O.wf_sptensor(B)
            if p.expect("sptenmat.to_sptensor", not probs, "malformed:" + ",".join(probs), str(probs), vname):
                p.expect_array("sptenmat.to_sptensor", B, A, variant=vname, kind="sptensor")
                p.expect("sptenmat.to_sptensor", O.pyshape(B.shape) == shape, "wrong_shape", str(B.shape), vname)
                p.expect("sptenmat.to_sptensor", B.nnz == k, "wrong_nnz", f"{B.nnz}!={k}", vname)
        ok, F = p.call("sptenmat.full", lambda: M.full(), variant=vname)
        if ok:
            _check_tenmat(p, "sptenmat.full", F, A, R, C, vname)
        ok, D = p.call("sptenmat.double", lambda: M.double(), variant=vname)
        if ok:
            p.expect("sptenmat.double", sparse.issparse(D), "wrong_type", str(type(D)), vname)
            p.expect_array("sptenmat.double", D, rm.matricize(A, R, C), variant=vname)
        ok, Mc = p.call("sptenmat.copy", lambda: M.copy(), variant=vname)
        if ok:
            _check_sptenmat(p, "sptenmat.copy", Mc, A, R, C, vname, k)
        if vname == "both" and (A.size <= 6 or list(R) == sorted(R) and list(C) == sorted(C)):
            _sptenmat_setitem_histories(p, hd, A, R, C, kw)
        if vname == "both":
            want = rm.matricize(A, R, C)
            for form, arg in (("dense", want.copy()), ("coo", sparse.coo_matrix(want))):
                ok, M2 = p.call("sptenmat.from_array",
                                lambda: ttb.sptenmat.from_array(arg, np.array(R, dtype=int), np.array(C, dtype=int), shape),
                                variant=form)
                if ok:
                    _check_sptenmat(p, "sptenmat.from_array", M2, A, R, C, form, k)
            # explicit constructor with duplicates that must be summed
            rows, cols = np.nonzero(want)
            if len(rows):
                subs2 = np.vstack([np.column_stack([rows, cols]), np.column_stack([rows, cols])])
                vals2 = np.concatenate([want[rows, cols] - 1.0, np.ones(len(rows))]).reshape(-1, 1)
                ok, M3 = p.call("sptenmat.__init__",
                                lambda: ttb.sptenmat(subs2, vals2, np.array(R, dtype=int), np.array(C, dtype=int), shape),
                                variant="dups")
                if ok:
                    _check_sptenmat(p, "sptenmat.__init__", M3, A, R, C, "dups", k)
            # ... and with repeated subscripts whose values cancel exactly (on a zero cell, listed first / last / apart)
            zr, zc = np.nonzero(want == 0)
            if len(zr):
                base_s = np.column_stack([rows, cols]).reshape(-1, 2)
                base_v = want[rows, cols].reshape(-1, 1)
                z = np.array([[zr[0], zc[0]]])
                for nm, ss, vv in (("first", [z, z, base_s], [[[2.5]], [[-2.5]], base_v]),
                                   ("last", [base_s, z, z], [base_v, [[2.5]], [[-2.5]]]),
                                   ("apart", [z, base_s, z], [[[2.5]], base_v, [[-2.5]]])):
                    subs4 = np.vstack(ss).astype(int)
                    vals4 = np.vstack([np.asarray(x, dtype=float).reshape(-1, 1) for x in vv])
                    ok, M4 = p.call("sptenmat.__init__",
                                    lambda: ttb.sptenmat(subs4, vals4, np.array(R, dtype=int), np.array(C, dtype=int), shape),
                                    variant="dups_cancel:" + nm)
                    if ok:
                        _check_sptenmat(p, "sptenmat.__init__", M4, A, R, C, "dups_cancel:" + nm, k)


def _sptenmat_setitem_histories(p, hd, A, R, C, kw):
    """Depth-2 histories on the matricized form: M[r,c] = v (v != 0) for positions sorting before / between / after
    the stored ones; M must denote the updated matrix and convert back to the updated tensor, whatever the order
    in which the writes were issued."""
    want0 = rm.matricize(A, R, C)
    nr, nc = want0.shape
    pos = [(r, c) for c in range(nc) for r in range(nr)]
    if len(pos) > 6:
        pos = pos[:3] + pos[-3:]
    seqs = [[q] for q in pos] + [[pos[-1], pos[0]], [pos[0], pos[-1]]]
    if len(pos) >= 3:
        seqs.append([pos[len(pos) // 2], pos[0]])
    for seq in seqs:
        S = H.build(hd)
        try:
            M = S.to_sptenmat(**kw)
        except Exception:  # noqa: BLE001  (reported by the conversion check itself)
            return
        want = want0.copy()
        okk = True
        for n_, (r, c) in enumerate(seq):
            v = 21.0 + 2 * n_
            want[r, c] = v
            p.ctx.tick()
            try:
                M[r, c] = v
            except Exception as e:  # noqa: BLE001
                p.ctx.fail("sptenmat.__setitem__", "exception:" + type(e).__name__, f"seq={seq}: {e}", variant="history", case=p.case)
                okk = False
                break
        if not okk:
            continue
        probs = O.wf_sptenmat(M, allow_explicit_zero=True)
        if probs:
            p.ctx.fail("sptenmat.__setitem__", "malformed:" + ",".join(probs), f"seq={seq}", variant="history", case=p.case)
            continue
        if not p.expect_array("sptenmat.__setitem__", M, want, variant="history"):
            continue
        wantT = rm.unmatricize(want, A.shape, R, C)
        ok, B = p.call("sptenmat.to_sptensor", lambda: M.to_sptensor(), variant="after_setitem")
        if ok:
            p.expect_array("sptenmat.to_sptensor", B, wantT, variant="after_setitem")
            ok, F = p.call("sptenmat.full", lambda: M.full(), variant="after_setitem")
            if ok:
                p.expect_array("sptenmat.full", F, want, variant="after_setitem")
            # the same array matricized afresh must compare equal (stored order must not record the history)
            try:
                fresh = B.to_sptenmat(**kw)
                if not M.isequal(fresh):
                    p.ctx.fail("sptenmat.isequal", "history_dependent", f"seq={seq}", variant="after_setitem", case=p.case)
            except Exception as e:  # noqa: BLE001
                p.ctx.fail("sptenmat.isequal", "exception:" + type(e).__name__, str(e)[:200], variant="after_setitem", case=p.case)


def _run_kruskal(case, ctx):
    hd = case["h"]
    A = H.ref_array(hd)
    shape = tuple(hd["shape"])
    N = len(shape)
    ctx.state()
    if A.size >= 2 and np.count_nonzero(A):
        ctx.nontriv()
    p = Probe(ctx, case)
    K = H.build(hd)
    p.expect_array("ktensor", K, A)
    p.expect("ktensor.shape", O.pyshape(K.shape) == shape, "wrong_shape", str(K.shape))
    for nm, kind in (("full", "tensor"), ("to_tensor", "tensor"), ("double", "ndarray")):
        K = H.build(hd)
        ok, B = p.call("ktensor." + nm, lambda: getattr(K, nm)())
        if ok:
            p.expect_array("ktensor." + nm, B, A, kind=kind)
            p.after_edit("ktensor." + nm, B, K, A)
            if kind == "tensor":
                p.expect("ktensor." + nm, O.pyshape(B.shape) == shape, "wrong_shape", str(B.shape))
    ok, Kc = p.call("ktensor.copy", lambda: K.copy())
    if ok:
        p.expect_array("ktensor.copy", Kc, A, kind="ktensor")
    if "variant" in case:
        variants = [v for v in _partition_variants(N) if v[0] == case["variant"] and _kw_json(v[1]) == case["kw"]]
    else:
        variants = [v for v in _partition_variants(N) if v[0] in ("both", "fc", "bc", "t")]
    for vname, kw, R, C in variants:
        sub = dict(case, variant=vname, kw=_kw_json(kw))
        q = Probe(ctx, sub)
        K = H.build(hd)
        ok, M = q.call("ktensor.to_tenmat", lambda: K.to_tenmat(**kw), variant=vname)
        if ok:
            _check_tenmat(q, "ktensor.to_tenmat", M, A, R, C, vname)


def _run_tucker(case, ctx):
    hd = case["h"]
    A = H.ref_array(hd)
    shape = tuple(hd["shape"])
    ctx.state()
    if A.size >= 2 and np.count_nonzero(A):
        ctx.nontriv()
    p = Probe(ctx, case)
    T = H.build(hd)
    p.expect_array("ttensor", T, A)
    p.expect("ttensor.shape", O.pyshape(T.shape) == shape, "wrong_shape", str(T.shape))
    for nm, kind in (("full", "tensor"), ("to_tensor", "tensor"), ("double", "ndarray")):
        T = H.build(hd)
        ok, B = p.call("ttensor." + nm, lambda: getattr(T, nm)(), variant=hd["core"])
        if ok:
            p.expect_array("ttensor." + nm, B, A, kind=kind, variant=hd["core"])
            p.after_edit("ttensor." + nm, B, T, A, variant=hd["core"])
            if kind == "tensor":
                p.expect("ttensor." + nm, O.pyshape(B.shape) == shape, "wrong_shape", str(B.shape), hd["core"])
    ok, Tc = p.call("ttensor.copy", lambda: T.copy())
    if ok:
        p.expect_array("ttensor.copy", Tc, A, kind="ttensor")


def _run_sum(case, ctx):
    hd = case["h"]
    A = H.ref_array(hd)
    shape = A.shape
    ctx.state()
    if len(hd["parts"]) >= 2:
        ctx.nontriv()
    p = Probe(ctx, case)
    variant = "+".join(sorted({x["kind"] for x in hd["parts"]}))
    for nm, kind in (("full", "tensor"), ("to_tensor", "tensor"), ("double", "ndarray")):
        S = H.build(hd)
        p.expect_array("sumtensor", S, A)
        ok, B = p.call("sumtensor." + nm, lambda: getattr(S, nm)(), variant=variant)
        if ok:
            p.expect_array("sumtensor." + nm, B, A, kind=kind, variant=variant)
            # the parts must still denote what they did (full() accumulates in place)
            p.expect_array("sumtensor." + nm, S, A, variant=variant + ":parts_after")
            p.after_edit("sumtensor." + nm, B, S, A, variant=variant)
    S = H.build(hd)
    p.expect("sumtensor.shape", O.pyshape(S.shape) == shape, "wrong_shape", str(S.shape))
    ok, Sc = p.call("sumtensor.copy", lambda: S.copy())
    if ok:
        p.expect_array("sumtensor.copy", Sc, A, kind="sumtensor")
