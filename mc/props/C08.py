"""C08 - Kruskal re-parameterisations preserve the tensor and reach their normal form.

Every case builds FRESH real ktensors from a holder descriptor (mc/holders.py), applies one real
operation (or a depth-2 composition) and compares with the reference formula
    value(w, U)[i] = sum_r w_r prod_n U_n[i_n, r]
evaluated on the object's own attributes (never through full()).
"""

import itertools
from math import prod

import numpy as np

from mc import holders as H
from mc import refmodel as rm
from mc import space
from mc.engine import exc_symptom, short_tb

ID = "C08"
RULE = ("product explorer (+ depth-2 compositions): (Kruskal holder: shape x rank x every weight pattern over "
        "{2,-1,0,1}^R x zero-column variant, integer factor matrices; for stand-alone fixsigns additionally every per-mode "
        "sign pattern of every component's columns) x (re-parameterising operation with every argument from its finite "
        "domain; every integer argument that designates a mode or a component both as a Python int and as a numpy "
        "integer scalar, scalar factors as Python and numpy scalars).  Invariant per transition: the Kruskal value recomputed from "
        "weights/factor_matrices with the reference formula is unchanged within 1e-12*scale (bit-exact for the "
        "operations that only move, negate or multiply by integers), and the normal form promised by the operation "
        "holds.  Non-trivial: >= 2 cells and a non-zero denoted array.")
ASSUMPTIONS = ["reference Kruskal formula (np.einsum) in mc/refmodel.py",
               "factor matrices hold small integers, weights in {2,-1,0,1}: values/sums/integer multiples are exact",
               "objects are observed through .weights/.factor_matrices only",
               "tolerance 1e-12*scale (scale = max entry of the Kruskal value of |w|,|U|) where roots/norms are taken",
               "fixsigns(other): reference tensors have at most as many components as the receiver; alignment (at most one "
               "anti-correlated mode left per component) is asserted only for components whose normalised weight is non-zero",
               "after normalize/arrange the weights are compared with |w_r| * prod_n ||u_n,r|| (0 for a component with a zero "
               "column), which pins the component order when no sorting is requested",
               "extract(): the empty selection is not enumerated (the library rejects it by design, upstream tests pin that)",
               "numpy integer scalars (np.int64, what np.argmax / np.arange hand out) are admissible wherever a mode or component "
               "index is documented as int, np.float64 / np.int64 wherever a scalar factor is; the library accepts "
               "(int, np.integer) throughout pyttb_utils",
               "score: the returned flag is not asserted (its polarity is pinned by the upstream functional tests)"]
BOUNDS = {
    "quick": "shapes order<=3,size<=3,cells<=12 (N>=1) + five 4-way shapes; ranks 1-3; all weight patterns "
             "{2,-1,0,1}^R (rank 3 on order>=3 shapes: 16 patterns); zero column none/first-mode/last-mode; normalize: normtype{2,1} x wf{None,all,each mode} "
             "x sort x mode; arrange: sort, each wf, every permutation in 3 forms; fixsigns(); redistribute(each n); "
             "every int-valued wf / mode argument as int and np.int64; "
             "12 depth-2 compositions; extract: every ordered subset x forms (single index: int, np.int64); permute: all N! x forms; "
             "tovec/from_vector (1d,col,row; also after normalize(weight_factor=0|last|all) and with C-ordered / strided-view factor arrays) / update (every sorted mode subset incl. -1; single mode: int, np.int64) / "
             "tolist (None, each n as int and np.int64); "
             "+,-,neg,pos, scalar*(7 scalars: float, int, np.float64, np.int64; both sides); fixsigns() and fixsigns();fixsigns() "
             "on the small weight family x every per-mode column sign pattern {+-1}^N per component (full product if <=64 "
             "else uniform+staggered; reaches components with 4 negative modes on the 4-way shapes); fixsigns(ref): ref = flipped self / flipped other, every "
             "per-mode sign pattern {+-1}^N per component (full product if <=64 else uniform+staggered), RB<=RA; "
             "score (weights: all for R<=2, 8 patterns for R=3) vs every ordered subset x 5 (pair-flip pattern, penalty) "
             "combinations + an unrelated tensor",
    "thorough": "shapes order<=4,size<=3,cells<=18; all weight patterns everywhere (score: 16 patterns for rank 3); same operations "
                "plus normtype inf; full flip / column-sign product up to 512 patterns",
}
CHUNK = 12
TOL = 1e-12

W_ALPHABET = (2.0, -1.0, 0.0, 1.0)


# ---------------------------------------------------------------------------
# enumeration


def _shapes(tier):
    if tier == "thorough":
        return space.shapes(4, 3, 18)
    return space.shapes(3, 3, 12) + [(1, 1, 1, 1), (1, 2, 1, 3), (2, 1, 3, 2), (3, 1, 1, 2), (2, 2, 2, 2)]


def _hold(shape, R, w, seed, zc=None, salt=0):
    return {"kind": "ktensor", "shape": list(shape), "rank": R, "weights": [float(x) for x in w],
            "salt": salt + seed, "vseed": seed, "zero_col": zc}


def _parts(h):
    """Reference parameters of a holder; "signs" (one +-1 per mode for every component) negates columns."""
    w, U = H.ktensor_parts(h)
    for r, row in enumerate(h.get("signs") or []):
        for n, sg in enumerate(row):
            if sg < 0:
                U[n][:, r] = -U[n][:, r]
    return w, U


def _build(h):
    if not h.get("signs"):
        return H.build(h)
    import pyttb as ttb

    w, U = _parts(h)
    return ttb.ktensor([u.copy(order="F") for u in U], w.copy())


def _zero_cols(N, R):
    out = [None, [0, 0]]
    if [N - 1, R - 1] != [0, 0]:
        out.append([N - 1, R - 1])
    return out


_W3_QUICK = [(a, b, c) for a in W_ALPHABET for (b, c) in ((-1.0, 1.0), (0.0, 2.0), (2.0, 2.0), (1.0, -1.0))]
_W_SMALL = {1: [(1.0,), (-1.0,), (2.0,), (0.0,)],
            2: [(2.0, -1.0), (1.0, 1.0), (-1.0, 0.0)],
            3: [(2.0, -1.0, 1.0), (1.0, 0.0, -1.0)]}
_W_SCORE = {1: [(x,) for x in W_ALPHABET],
            2: list(itertools.product(W_ALPHABET, repeat=2)),
            3: [(2.0, -1.0, 1.0), (1.0, 0.0, -1.0), (2.0, 2.0, -1.0), (1.0, 1.0, 1.0), (-1.0, 2.0, 0.0),
                (0.0, 0.0, 1.0), (-1.0, -1.0, 2.0), (1.0, 2.0, -1.0)]}


def _objects(tier, seed, family="full"):
    """Kruskal holders: shape x rank x weight pattern x zero-column variant (simplest first)."""
    thorough = tier == "thorough"
    for s in _shapes(tier):
        N = len(s)
        for R in (1, 2, 3):
            if family == "small":
                wl = _W_SMALL[R]
            elif family == "score" and not thorough:
                wl = _W_SCORE[R]
            elif family == "score" and R == 3:
                wl = _W3_QUICK
            elif R == 3 and N >= 3 and not thorough:
                wl = _W3_QUICK
            else:
                wl = list(itertools.product(W_ALPHABET, repeat=R))
            zcs = _zero_cols(N, R)
            if family == "score" and not thorough:
                zcs = zcs[:2]
            for w in wl:
                for zc in zcs:
                    yield _hold(s, R, w, seed, zc)


def gen_cases(tier, seed):
    thorough = tier == "thorough"
    nts = [2, 1, "inf"] if thorough else [2, 1]
    objs = list(_objects(tier, seed))
    for h in objs:
        yield {"check": "inplace", "h": h, "nts": nts}
    for h in objs:
        yield {"check": "select", "h": h}
    for h in objs:
        yield {"check": "vector", "h": h}
    for h in objs:
        yield {"check": "algebra", "h": h}
    cap = 512 if thorough else 64
    for h in _objects(tier, seed, "small"):
        N, R = len(h["shape"]), h["rank"]
        for ref in ("flip", "other"):
            for RB in sorted({R, max(1, R - 1)}, reverse=True):
                mode = "full" if (2 ** N) ** RB <= cap else "uniform+staggered"
                yield {"check": "fixsigns_ref", "h": h, "ref": ref, "RB": RB, "flipset": mode}
    for h in _objects(tier, seed, "small"):
        N, R = len(h["shape"]), h["rank"]
        yield {"check": "fixsigns_signs", "h": h, "flipset": "full" if (2 ** N) ** R <= cap else "uniform+staggered"}
    for h in _objects(tier, seed, "score"):
        yield {"check": "score", "h": h}


def run_case(case, ctx):
    globals()["_run_" + case["check"]](case, ctx)


# ---------------------------------------------------------------------------
# reference helpers (no pyttb)


def cnorm(col, nt):
    col = np.asarray(col, dtype=float)
    if col.size == 0:
        return 0.0
    if nt == 2:
        return float(np.sqrt(np.sum(col * col)))
    if nt == 1:
        return float(np.sum(np.abs(col)))
    if nt == "inf":
        return float(np.max(np.abs(col)))
    raise ValueError(nt)


def cnorms(U, nt):
    return np.array([[cnorm(f[:, r], nt) for r in range(f.shape[1])] for f in U]).reshape(len(U), -1)


def scale_of(w, U):
    a = rm.kruskal(np.abs(w), [np.abs(u) for u in U])
    return max(1.0, float(np.max(a)) if a.size else 1.0)


def close(a, b, scale, tol=TOL):
    a, b = np.asarray(a, dtype=float), np.asarray(b, dtype=float)
    if a.shape != b.shape:
        return False
    return bool(np.all(np.abs(a - b) <= tol * scale))


def ref_normalize2(w, U):
    """2-norm normalisation with the sign rule (negative weight -> flip the first factor)."""
    w = np.array(w, dtype=float)
    U = [np.array(u, dtype=float) for u in U]
    for n in range(len(U)):
        for r in range(len(w)):
            c = cnorm(U[n][:, r], 2)
            if c > 0:
                U[n][:, r] = U[n][:, r] / c
            w[r] = w[r] * c
    for r in range(len(w)):
        if w[r] < 0:
            U[0][:, r] = -U[0][:, r]
            w[r] = -w[r]
    return w, U


def ref_vec(w, U, include_weights):
    x = [float(v) for v in w] if include_weights else []
    for f in U:
        for r in range(f.shape[1]):
            for i in range(f.shape[0]):
                x.append(float(f[i, r]))
    return np.array(x, dtype=float)


def wf_ktensor(K, shape, R):
    """Well-formedness problems of a ktensor of the expected shape/rank."""
    probs = []
    w = getattr(K, "weights", None)
    U = getattr(K, "factor_matrices", None)
    if not isinstance(w, np.ndarray) or w.shape != (R,):
        probs.append(f"weights_shape:{type(w).__name__}{getattr(w, 'shape', '')}")
    elif w.dtype != np.float64:
        probs.append(f"weights_dtype:{w.dtype}")
    if not isinstance(U, list) or len(U) != len(shape):
        probs.append(f"factor_count:{type(U).__name__}")
    else:
        for n, f in enumerate(U):
            if not isinstance(f, np.ndarray) or f.shape != (shape[n], R):
                probs.append(f"factor_shape:{n}:{getattr(f, 'shape', type(f).__name__)}")
            elif f.dtype != np.float64:
                probs.append(f"factor_dtype:{n}:{f.dtype}")
    return probs


def _form(seq, form):
    if form == "list":
        return [int(i) for i in seq]
    if form == "tuple":
        return tuple(int(i) for i in seq)
    if form == "array":
        return np.array([int(i) for i in seq], dtype=int)
    if form == "int":
        return int(seq[0])
    if form == "npint":
        return np.int64(seq[0])
    raise ValueError(form)


def _int(i, as_np):
    """An integer argument as a Python int or as the numpy integer scalar that np.argmax / np.arange hand out."""
    return np.int64(i) if as_np else int(i)


class Probe:
    def __init__(self, ctx, case):
        self.ctx, self.case = ctx, case

    def fail(self, op, symptom, detail="", variant=""):
        self.ctx.fail(op, symptom, detail, variant=variant, case=self.case)

    def call(self, op, f, variant=""):
        self.ctx.tick()
        try:
            return True, f()
        except Exception as e:  # noqa: BLE001
            self.fail(op, exc_symptom(e), short_tb(e), variant)
            return False, None

    def wf(self, op, K, shape, R, variant=""):
        probs = wf_ktensor(K, shape, R)
        if probs:
            self.fail(op, "malformed:" + probs[0].split(":")[0], str(probs), variant)
            return False
        return True

    def value(self, op, K, A, scale, variant="", exact=False):
        B = rm.kruskal(K.weights, K.factor_matrices)
        good = rm.same(B, A) if exact else close(B, A, scale)
        if not good:
            err = float(np.max(np.abs(B - A))) if B.shape == A.shape and B.size else -1.0
            self.fail(op, "wrong_value", f"max|got-want|={err:.3g} scale={scale:g} w={K.weights.tolist()} "
                      f"got={np.asarray(B).ravel()[:8].tolist()} want={np.asarray(A).ravel()[:8].tolist()}", variant)
        return good

    def params(self, op, K, w, U, variant="", what="wrong_value"):
        """Bit-exact comparison of the parameterisation."""
        good = rm.same(K.weights, w) and len(K.factor_matrices) == len(U) and all(
            rm.same(a, b) for a, b in zip(K.factor_matrices, U))
        if not good:
            self.fail(op, what, f"weights={K.weights.tolist()} want={np.asarray(w).tolist()} "
                      f"U0={K.factor_matrices[0].tolist()} want={np.asarray(U[0]).tolist()}", variant)
        return good


def _snap(K):
    return K.weights.copy(), [f.copy() for f in K.factor_matrices]


def _nontrivial(A):
    return A.size >= 2 and bool(np.count_nonzero(A))


# ---------------------------------------------------------------------------
# in-place re-parameterisations: normalize / arrange / fixsigns / redistribute (+ compositions)


def _v_normalize(N, nts):
    out = []
    for nt in nts:
        for wf in [None, "all"] + list(range(N)):
            for sort in (False, True):
                out.append({"op": "normalize", "nt": nt, "wf": wf, "sort": sort, "mode": None})
            if isinstance(wf, int):
                for sort in (False, True):
                    out.append({"op": "normalize", "nt": nt, "wf": wf, "sort": sort, "mode": None, "np": True})
        for n in range(N):
            out.append({"op": "normalize", "nt": nt, "wf": None, "sort": False, "mode": n})
            out.append({"op": "normalize", "nt": nt, "wf": None, "sort": False, "mode": n, "np": True})
    return out


def _v_arrange(N, R):
    out = [{"op": "arrange", "wf": None, "perm": None}]
    for k in range(N):
        out.append({"op": "arrange", "wf": k, "perm": None})
        out.append({"op": "arrange", "wf": k, "perm": None, "np": True})
    for p in itertools.permutations(range(R)):
        for form in ("list", "tuple", "array"):
            out.append({"op": "arrange", "wf": None, "perm": list(p), "form": form})
    return out


def _v_inplace(N, R, nts):
    vs = _v_normalize(N, nts) + _v_arrange(N, R) + [{"op": "fixsigns"}]
    vs += [{"op": "redistribute", "mode": n} for n in range(N)]
    vs += [{"op": "redistribute", "mode": n, "np": True} for n in range(N)]
    last = N - 1
    rot = list(range(1, R)) + [0]
    seqs = [
        [{"op": "normalize", "nt": 2, "wf": None, "sort": False, "mode": None}, {"op": "arrange", "wf": None, "perm": None}],
        [{"op": "normalize", "nt": 1, "wf": "all", "sort": False, "mode": None}, {"op": "arrange", "wf": None, "perm": None}],
        [{"op": "normalize", "nt": 1, "wf": last, "sort": True, "mode": None}, {"op": "arrange", "wf": 0, "perm": None}],
        [{"op": "normalize", "nt": 2, "wf": None, "sort": True, "mode": None},
         {"op": "arrange", "wf": None, "perm": rot, "form": "list"}],
        [{"op": "arrange", "wf": None, "perm": None}, {"op": "fixsigns"}],
        [{"op": "arrange", "wf": last, "perm": None}, {"op": "fixsigns"}],
        [{"op": "arrange", "wf": None, "perm": rot, "form": "array"}, {"op": "fixsigns"}],
        [{"op": "fixsigns"}, {"op": "arrange", "wf": None, "perm": None}],
        [{"op": "redistribute", "mode": last}, {"op": "normalize", "nt": 2, "wf": None, "sort": True, "mode": None}],
        [{"op": "normalize", "nt": 2, "wf": None, "sort": False, "mode": None}, {"op": "redistribute", "mode": 0}],
        [{"op": "normalize", "nt": 2, "wf": None, "sort": False, "mode": last},
         {"op": "normalize", "nt": 1, "wf": None, "sort": False, "mode": 0}],
        [{"op": "normalize", "nt": 2, "wf": "all", "sort": True, "mode": None},
         {"op": "normalize", "nt": 2, "wf": None, "sort": True, "mode": None}],
    ]
    vs += [{"op": "seq", "steps": s} for s in seqs]
    return vs


def _opname(v):
    op = v["op"]
    npi = ":npint" if v.get("np") else ""
    if op == "normalize":
        if v["mode"] is not None:
            return "ktensor.normalize", "mode" + npi
        wf = "none" if v["wf"] is None else ("all" if v["wf"] == "all" else "k")
        return "ktensor.normalize", wf + npi + ("+sort" if v["sort"] else "")
    if op == "arrange":
        if v["perm"] is not None:
            return "ktensor.arrange", "perm:" + v["form"]
        return "ktensor.arrange", "sort" if v["wf"] is None else "wf" + npi
    if op == "fixsigns":
        return "ktensor.fixsigns", ""
    if op == "redistribute":
        return "ktensor.redistribute", npi[1:]
    raise ValueError(op)


def _invoke(K, v):
    op = v["op"]
    if op == "normalize":
        nt = np.inf if v["nt"] == "inf" else v["nt"]
        if v["mode"] is not None:
            return K.normalize(normtype=nt, mode=_int(v["mode"], v.get("np")))
        wf = _int(v["wf"], v.get("np")) if isinstance(v["wf"], int) else v["wf"]
        return K.normalize(weight_factor=wf, sort=v["sort"], normtype=nt)
    if op == "arrange":
        if v["perm"] is not None:
            return K.arrange(permutation=_form(v["perm"], v["form"]))
        if v["wf"] is None:
            return K.arrange()
        return K.arrange(weight_factor=_int(v["wf"], v.get("np")))
    if op == "fixsigns":
        return K.fixsigns()
    if op == "redistribute":
        return K.redistribute(_int(v["mode"], v.get("np")))
    raise ValueError(op)


def _unit_cols(p, name, variant, U0, U1, nt, modes, permuted=False):
    """Columns of the listed modes have unit norm; columns that were zero stay zero.  With
    `permuted` the components may have been re-ordered: then only the number of zero columns per
    mode is compared."""
    ok = True
    for n in modes:
        zeros0 = zeros1 = 0
        for r in range(U1[n].shape[1]):
            c0 = cnorm(U0[n][:, r], nt)
            c1 = cnorm(U1[n][:, r], nt)
            zeros0 += c0 == 0
            iszero = not np.any(U1[n][:, r] != 0)
            zeros1 += iszero
            if not permuted and c0 == 0:
                if not iszero:
                    p.fail(name, "zero_column_changed", f"mode {n} col {r}: {U1[n][:, r].tolist()}", variant)
                    ok = False
            elif not iszero and not abs(c1 - 1.0) <= TOL:
                p.fail(name, "not_unit_norm", f"mode {n} col {r} norm({nt})={c1!r}", variant)
                ok = False
            elif iszero and not permuted:
                p.fail(name, "not_unit_norm", f"mode {n} col {r} became zero", variant)
                ok = False
        if permuted and zeros0 != zeros1:
            p.fail(name, "zero_column_changed", f"mode {n}: {zeros0} zero columns before, {zeros1} after", variant)
            ok = False
    return ok


def _weights_nf(p, name, variant, w1, wref, sort, signed=False):
    ok = True
    if not signed and not np.all(w1 >= 0):
        p.fail(name, "negative_weight", f"{w1.tolist()}", variant)
        ok = False
    if sort:
        if np.any(np.diff(w1) > 0):
            p.fail(name, "unsorted", f"{w1.tolist()}", variant)
            ok = False
        wref = np.sort(wref)[::-1]
    if not np.all(np.abs(w1 - wref) <= TOL * np.maximum(1.0, np.abs(wref))):
        p.fail(name, "wrong_weights", f"got {w1.tolist()} want {np.asarray(wref).tolist()}", variant)
        ok = False
    return ok


def _fixsigns_bad(U, r):
    """Modes whose column r has all of its largest-magnitude entries negative."""
    bad = []
    for n, f in enumerate(U):
        col = f[:, r]
        if col.size == 0:
            continue
        m = np.max(np.abs(col))
        if m > 0 and np.all(col[np.abs(col) == m] < 0):
            bad.append(n)
    return bad


def _step(p, K, v, A, scale, shape, R, suffix=""):
    """Apply one in-place operation to K and check every invariant against the pre-state."""
    N = len(shape)
    name, variant = _opname(v)
    variant += suffix
    w0, U0 = _snap(K)
    ok, ret = p.call(name, lambda: _invoke(K, v), variant)
    if not ok:
        return False
    if not p.wf(name, K, shape, R, variant):
        return False
    op = v["op"]
    if op != "arrange" and ret is not K:
        p.fail(name, "wrong_return", f"returned {type(ret).__name__}, documented: self", variant)
    w1, U1 = K.weights, K.factor_matrices
    good = True
    if op == "normalize":
        nt = v["nt"]
        good &= p.value(name, K, A, scale, variant)
        c0 = cnorms(U0, nt)
        if v["mode"] is not None:
            m = v["mode"]
            for n in range(N):
                if n != m and not rm.same(U1[n], U0[n]):
                    p.fail(name, "other_mode_changed", f"mode {n}", variant)
                    good = False
            good &= _unit_cols(p, name, variant, U0, U1, nt, [m])
            good &= _weights_nf(p, name, variant, w1, w0 * c0[m], False, signed=True)
        else:
            wref = np.abs(w0) * np.prod(c0, axis=0)
            if v["wf"] is None:
                good &= _unit_cols(p, name, variant, U0, U1, nt, range(N), permuted=v["sort"])
                good &= _weights_nf(p, name, variant, w1, wref, v["sort"])
                p.ctx.flag("normalize:negative_weight") if np.any(w0 < 0) else None
                p.ctx.flag("normalize:zero_column") if np.any(c0 == 0) else None
            else:
                if not np.all(w1 == 1.0):
                    p.fail(name, "weights_not_one", f"{w1.tolist()}", variant)
                    good = False
                if v["wf"] == "all":
                    c1 = cnorms(U1, nt)
                    want = np.power(wref, 1.0 / N)
                    if v["sort"]:  # components may have been re-ordered
                        want = np.sort(want)
                        c1 = c1[:, np.argsort(c1[0], kind="stable")]
                    if not np.all(np.abs(c1 - want[None, :]) <= 1e-11 * np.maximum(1.0, want[None, :])):
                        p.fail(name, "uneven_absorption", f"column norms {c1.tolist()} want {want.tolist()}", variant)
                        good = False
                else:
                    good &= _unit_cols(p, name, variant, U0, U1, nt, [n for n in range(N) if n != v["wf"]],
                                       permuted=v["sort"])
    elif op == "arrange":
        if v["perm"] is not None:
            perm = v["perm"]
            good &= p.params(name, K, w0[perm], [u[:, perm] for u in U0], variant)
            good &= p.value(name, K, A, scale, variant)
        else:
            good &= p.value(name, K, A, scale, variant)
            c0 = cnorms(U0, 2)
            wref = np.abs(w0) * np.prod(c0, axis=0)
            if v["wf"] is None:
                good &= _unit_cols(p, name, variant, U0, U1, 2, range(N), permuted=True)
                good &= _weights_nf(p, name, variant, w1, wref, True)
            else:
                if not np.all(w1 == 1.0):
                    p.fail(name, "weights_not_one", f"{w1.tolist()}", variant)
                    good = False
                good &= _unit_cols(p, name, variant, U0, U1, 2, [n for n in range(N) if n != v["wf"]], permuted=True)
    elif op == "fixsigns":
        if not rm.same(w1, w0):
            p.fail(name, "weights_changed", f"{w1.tolist()} was {w0.tolist()}", variant)
            good = False
        for r in range(R):
            flips = 0
            for n in range(N):
                a, b = U1[n][:, r], U0[n][:, r]
                if rm.same(a, b):
                    continue
                if rm.same(a, -b):
                    flips += 1
                else:
                    p.fail(name, "wrong_value", f"mode {n} col {r} is not +-the old column", variant)
                    good = False
            if flips % 2:
                p.fail(name, "odd_flips", f"component {r}: {flips} columns negated", variant)
                good = False
            bad = _fixsigns_bad(U1, r)
            if len(bad) > 1:
                p.fail(name, "not_normal_form", f"component {r}: modes {bad} keep a negative largest entry", variant)
                good = False
            nb = len(_fixsigns_bad(U0, r))
            if nb >= 2:
                p.ctx.flag("fixsigns:pair_flipped")
            if nb >= 4:
                p.ctx.flag("fixsigns:two_pairs_flipped")
            if nb % 2:
                p.ctx.flag("fixsigns:odd_negative")
        good &= p.value(name, K, A, scale, variant)
    elif op == "redistribute":
        m = v["mode"]
        want = [u.copy() for u in U0]
        for r in range(R):
            want[m][:, r] = U0[m][:, r] * w0[r]
        good &= p.params(name, K, np.ones(R), want, variant)
        good &= p.value(name, K, A, scale, variant)
    p.ctx.outcome([w1] + list(U1))
    if good:
        # observe_at "full() before vs. after": the library's own expansion agrees as well
        okf, F = p.call("ktensor.full", lambda: K.full(), "after:" + op)
        if okf:
            D = np.asarray(getattr(F, "data", F), dtype=float)
            if D.shape != A.shape or not close(D, A, scale):
                p.fail("ktensor.full", "wrong_value", f"full() after {name} differs from the original tensor", "after:" + op)
    return bool(good)


def _run_inplace(case, ctx):
    h = case["h"]
    shape, R = tuple(h["shape"]), h["rank"]
    N = len(shape)
    w, U = _parts(h)
    A = rm.kruskal(w, U)
    scale = scale_of(w, U)
    ctx.state()
    if _nontrivial(A):
        ctx.nontriv()
    vs = [case["only"]] if "only" in case else _v_inplace(N, R, case.get("nts", [2, 1]))
    for v in vs:
        sub = {"check": "inplace", "h": h, "only": v}
        p = Probe(ctx, sub)
        K = _build(h)
        if v["op"] == "seq":
            suffix = ""
            for st in v["steps"]:
                if not _step(p, K, st, A, scale, shape, R, suffix):
                    break
                suffix = "|after:" + st["op"]
        else:
            _step(p, K, v, A, scale, shape, R)


def _run_fixsigns_signs(case, ctx):
    """Stand-alone fixsigns() over the sign dimension of the holder: every per-mode sign pattern {+-1}^N of every
    component's columns (the same pattern sets as for fixsigns(other)).  Each pattern is an `inplace` sub-case."""
    h = case["h"]
    N, R = len(h["shape"]), h["rank"]
    for flips in _flip_patterns(N, R, case["flipset"]):
        for v in ({"op": "fixsigns"},
                  {"op": "seq", "steps": [{"op": "fixsigns"}, {"op": "fixsigns"}]}):
            _run_inplace({"check": "inplace", "h": dict(h, signs=flips), "only": v}, ctx)


# ---------------------------------------------------------------------------
# component selection, mode permutation, copies


def _v_select(N, R):
    out = [{"op": "copy"}, {"op": "extract_none"}]
    for k in range(1, R + 1):
        for sel in itertools.permutations(range(R), k):
            forms = ["list", "tuple", "array"] + (["int", "npint"] if k == 1 else [])
            for form in forms:
                out.append({"op": "extract", "sel": list(sel), "form": form})
    for order in itertools.permutations(range(N)):
        for form in ("array", "list", "tuple"):
            out.append({"op": "permute", "order": list(order), "form": form})
    return out


def _run_select(case, ctx):
    h = case["h"]
    shape, R = tuple(h["shape"]), h["rank"]
    N = len(shape)
    w, U = H.ktensor_parts(h)
    A = rm.kruskal(w, U)
    scale = scale_of(w, U)
    ctx.state()
    if _nontrivial(A) and (R > 1 or N > 1):
        ctx.nontriv()
    vs = [case["only"]] if "only" in case else _v_select(N, R)
    for v in vs:
        p = Probe(ctx, {"check": "select", "h": h, "only": v})
        K = H.build(h)
        op = v["op"]
        if op in ("copy", "extract_none"):
            name = "ktensor.copy" if op == "copy" else "ktensor.extract"
            ok, K2 = p.call(name, (lambda: K.copy()) if op == "copy" else (lambda: K.extract()), "none")
            if ok and p.wf(name, K2, shape, R, "none"):
                p.params(name, K2, w, U, "none")
                okq, eq = p.call("ktensor.isequal", lambda: K.isequal(K2))
                if okq and not (isinstance(eq, (bool, np.bool_)) and bool(eq)):
                    p.fail("ktensor.isequal", "wrong_value", f"copy not equal: {eq!r}")
        elif op == "extract":
            sel = v["sel"]
            ok, K2 = p.call("ktensor.extract", lambda: K.extract(_form(sel, v["form"])), v["form"])
            if ok and p.wf("ktensor.extract", K2, shape, len(sel), v["form"]):
                p.params("ktensor.extract", K2, w[sel], [u[:, sel] for u in U], v["form"])
                want = rm.kruskal(w[sel], [u[:, sel] for u in U])
                p.value("ktensor.extract", K2, want, scale, v["form"], exact=True)
                ctx.outcome([K2.weights] + list(K2.factor_matrices))
                # the receiver is not a re-parameterisation target here: it must be untouched
                p.params("ktensor.extract", K, w, U, v["form"], what="operand_mutated")
        elif op == "permute":
            order = v["order"]
            ok, K2 = p.call("ktensor.permute", lambda: K.permute(_form(order, v["form"])), v["form"])
            nshape = tuple(shape[i] for i in order)
            if ok and p.wf("ktensor.permute", K2, nshape, R, v["form"]):
                p.params("ktensor.permute", K2, w, [U[i] for i in order], v["form"])
                p.value("ktensor.permute", K2, np.transpose(A, order), scale, v["form"], exact=True)
                ctx.outcome([K2.weights] + list(K2.factor_matrices))


# ---------------------------------------------------------------------------
# vector / list round trips


def _v_vector(N, R):
    out = []
    for iw in (True, False):
        out.append({"op": "tovec", "iw": iw})
        for form in ("1d", "col", "row"):
            out.append({"op": "from_vector", "iw": iw, "form": form})
    # depth 2 (non-initial states): the same object reached through an in-place re-parameterisation or holding
    # factor arrays of another memory layout; the documented vector layout is defined on the current parameters
    pres = ["normalize:0", "normalize:all", "c_order", "view"] + ([f"normalize:{N - 1}"] if N > 1 else [])
    for pre in pres:
        for iw in (True, False):
            out.append({"op": "tovec", "iw": iw, "pre": pre})
            out.append({"op": "from_vector", "iw": iw, "form": "1d", "pre": pre})
    modes_all = [-1] + list(range(N))
    for k in range(1, len(modes_all) + 1):
        for sub in itertools.combinations(modes_all, k):
            forms = ["list", "array"] + (["int", "npint"] if k == 1 else [])
            for form in forms:
                out.append({"op": "update", "modes": list(sub), "form": form})
    out.append({"op": "tolist", "mode": None})
    for n in range(N):
        out.append({"op": "tolist", "mode": n})
        out.append({"op": "tolist", "mode": n, "np": True})
    return out


def _vecform(x, form):
    if form == "1d":
        return x.copy()
    if form == "col":
        return x.copy().reshape(-1, 1)
    if form == "row":
        return x.copy().reshape(1, -1)
    raise ValueError(form)


def _apply_pre(K, pre):
    """In-place prefix of a vector round trip; returns the (weights, factors) the object holds afterwards."""
    if pre.startswith("normalize:"):
        a = pre.split(":")[1]
        K.normalize(weight_factor="all" if a == "all" else int(a))
    elif pre == "c_order":
        for n in range(len(K.factor_matrices)):
            K.factor_matrices[n] = np.ascontiguousarray(K.factor_matrices[n])
    elif pre == "view":
        for n in range(len(K.factor_matrices)):
            f = K.factor_matrices[n]
            big = np.zeros((2 * f.shape[0] + 1, 2 * f.shape[1] + 1))
            big[::2, ::2][: f.shape[0], : f.shape[1]] = f
            K.factor_matrices[n] = big[::2, ::2][: f.shape[0], : f.shape[1]]
    return np.array(K.weights, dtype=float), [np.array(f, dtype=float) for f in K.factor_matrices]


def _run_vector(case, ctx):
    import pyttb as ttb

    h = case["h"]
    shape, R = tuple(h["shape"]), h["rank"]
    N = len(shape)
    w0, U0 = H.ktensor_parts(h)
    w, U = w0, U0
    A = rm.kruskal(w, U)
    scale = scale_of(w, U)
    ctx.state()
    if _nontrivial(A):
        ctx.nontriv()
    # a second object of the same shape/rank with different numbers: the receiver of update()
    h2 = dict(h, salt=h["salt"] + 7, weights=[3.0 + r for r in range(R)], zero_col=None)
    w2, U2 = H.ktensor_parts(h2)
    vs = [case["only"]] if "only" in case else _v_vector(N, R)
    for v in vs:
        p = Probe(ctx, {"check": "vector", "h": h, "only": v})
        K = H.build(h)
        op = v["op"]
        w, U = w0, U0
        pre = v.get("pre")
        if pre:
            ok, wu = p.call("ktensor.tovec", lambda: _apply_pre(K, pre), "pre:" + pre)
            if not ok:
                continue
            w, U = wu
            if not (np.all(np.isfinite(w)) and all(np.all(np.isfinite(u)) for u in U)):
                ctx.inadm()
                continue
        if op == "tovec":
            iw = v["iw"]
            var = ("weights" if iw else "noweights") + (":after:" + pre if pre else "")
            ok, x = p.call("ktensor.tovec", lambda: K.tovec(iw), var)
            if ok:
                want = ref_vec(w, U, iw)
                if not isinstance(x, np.ndarray) or x.shape != want.shape:
                    p.fail("ktensor.tovec", "wrong_shape", f"{getattr(x, 'shape', type(x))} want {want.shape}", var)
                elif not rm.same(x, want):
                    p.fail("ktensor.tovec", "wrong_value", f"{x.tolist()} want {want.tolist()}", var)
                else:
                    ctx.outcome(x)
        elif op == "from_vector":
            iw, form = v["iw"], v["form"]
            var = ("weights" if iw else "noweights") + ":" + form + (":after:" + pre if pre else "")
            ok, x = p.call("ktensor.tovec", lambda: K.tovec(iw), var)
            if not ok:
                continue
            ok, K2 = p.call("ktensor.from_vector", lambda: ttb.ktensor.from_vector(_vecform(x, form), shape, iw), var)
            if ok and p.wf("ktensor.from_vector", K2, shape, R, var):
                p.params("ktensor.from_vector", K2, w if iw else np.ones(R), U, var, what="roundtrip_differs")
        elif op == "update":
            modes, form = v["modes"], v["form"]
            var = ("weights" if -1 in modes else "noweights") + ":" + form
            pieces, ww, UU = [], w2.copy(), [u.copy() for u in U2]
            for m in modes:
                if m == -1:
                    pieces.append(w.copy())
                    ww = w.copy()
                else:
                    pieces.append(ref_vec(w, [U[m]], False))
                    UU[m] = U[m].copy()
            data = np.concatenate(pieces)
            Kr = H.build(h2)
            ok, ret = p.call("ktensor.update", lambda: Kr.update(_form(modes, form), data.copy()), var)
            if ok and p.wf("ktensor.update", Kr, shape, R, var):
                if ret is not Kr:
                    p.fail("ktensor.update", "wrong_return", f"{type(ret).__name__}", var)
                p.params("ktensor.update", Kr, ww, UU, var)
                if len(modes) == N + 1:
                    # complete vector: equals the from_vector/tovec round trip of the source object
                    p.value("ktensor.update", Kr, A, scale, var, exact=True)
        elif op == "tolist":
            m = v["mode"]
            var = "spread" if m is None else ("mode:npint" if v.get("np") else "mode")
            ok, L = p.call("ktensor.tolist", lambda: K.tolist() if m is None else K.tolist(_int(m, v.get("np"))), var)
            if not ok:
                continue
            if not isinstance(L, list) or len(L) != N or not all(
                    isinstance(f, np.ndarray) and f.shape == (shape[n], R) for n, f in enumerate(L)):
                p.fail("ktensor.tolist", "malformed:list", f"{[getattr(f, 'shape', type(f)) for f in L]}", var)
                continue
            ok, K2 = p.call("ktensor.__init__", lambda: ttb.ktensor(L), "from_tolist:" + var)
            if not (ok and p.wf("ktensor.__init__", K2, shape, R, "from_tolist:" + var)):
                continue
            if not np.all(K2.weights == 1.0):
                p.fail("ktensor.__init__", "weights_not_one", str(K2.weights.tolist()), "from_tolist:" + var)
            exact = m is None and bool(np.all(w == 1.0))
            p.value("ktensor.tolist", K2, A, scale, var, exact=exact)
            if exact:
                p.params("ktensor.tolist", K2, w, U, var, what="roundtrip_differs")
                ctx.flag("tolist:unit_weights")
            c0 = cnorms(U, 2)
            c1 = cnorms(L, 2)
            if m is None:
                # weights spread evenly: every mode's column is scaled by |w_r|^(1/N)
                want = c0 * np.power(np.abs(w), 1.0 / N)[None, :]
                if not np.all(np.abs(c1 - want) <= 1e-11 * np.maximum(1.0, want)):
                    p.fail("ktensor.tolist", "uneven_absorption", f"norms {c1.tolist()} want {want.tolist()}", var)
            else:
                _unit_cols(p, "ktensor.tolist", var, U, L, 2, [n for n in range(N) if n != m])
                # the receiver is normalised in place by this form; it must still denote the same tensor
                if p.wf("ktensor.tolist", K, shape, R, var + ":receiver"):
                    p.value("ktensor.tolist", K, A, scale, var + ":receiver")
            ctx.outcome(list(L))


# ---------------------------------------------------------------------------
# algebra


_SCALARS = [2.0, -3, 0.5, 0, -1.0, np.float64(-2.0), np.int64(3)]  # Python and numpy scalars


def _others(h):
    s = h["shape"]
    return {
        "r1": dict(h, rank=1, weights=[-1.0], salt=h["salt"] + 3, zero_col=None),
        "r2": dict(h, rank=2, weights=[1.0, -2.0], salt=h["salt"] + 5, zero_col=None),
        "same": dict(h),
    } if s else {}


def _v_algebra():
    out = [{"op": "neg"}, {"op": "pos"}]
    for o in ("r1", "r2", "same", "alias"):
        out.append({"op": "add", "other": o})
        out.append({"op": "sub", "other": o})
    for i in range(len(_SCALARS)):
        out.append({"op": "mul", "c": i})
        out.append({"op": "rmul", "c": i})
    return out


def _run_algebra(case, ctx):
    h = case["h"]
    shape, R = tuple(h["shape"]), h["rank"]
    w, U = H.ktensor_parts(h)
    A = rm.kruskal(w, U)
    scale = scale_of(w, U)
    ctx.state()
    if _nontrivial(A):
        ctx.nontriv()
    others = _others(h)
    vs = [case["only"]] if "only" in case else _v_algebra()
    for v in vs:
        p = Probe(ctx, {"check": "algebra", "h": h, "only": v})
        K = H.build(h)
        op = v["op"]
        if op in ("neg", "pos"):
            name = "ktensor.__neg__" if op == "neg" else "ktensor.__pos__"
            ok, K2 = p.call(name, (lambda: -K) if op == "neg" else (lambda: +K))
            if ok and p.wf(name, K2, shape, R):
                sgn = -1.0 if op == "neg" else 1.0
                p.params(name, K2, sgn * w, U)
                p.value(name, K2, sgn * A, scale, exact=True)
        elif op in ("add", "sub"):
            name = "ktensor.__add__" if op == "add" else "ktensor.__sub__"
            o = v["other"]
            if o == "alias":
                K1, w1, U1 = K, w, U
            else:
                K1 = H.build(others[o])
                w1, U1 = H.ktensor_parts(others[o])
            sgn = 1.0 if op == "add" else -1.0
            ok, K2 = p.call(name, (lambda: K + K1) if op == "add" else (lambda: K - K1), o)
            if ok and p.wf(name, K2, shape, R + len(w1), o):
                A1 = rm.kruskal(w1, U1)
                p.params(name, K2, np.concatenate([w, sgn * w1]), [np.hstack([a, b]) for a, b in zip(U, U1)], o)
                p.value(name, K2, A + sgn * A1, scale + scale_of(w1, U1), o, exact=True)
                ctx.outcome([K2.weights] + list(K2.factor_matrices))
                p.params(name, K, w, U, o, what="operand_mutated")
                # depth 2: re-parameterise the sum in place; both operands must keep denoting their arrays
                ok2, _ = p.call("ktensor.normalize", lambda: K2.normalize(), o + ">normalize")
                if ok2:
                    p.value(name, K, A, scale, o + ">normalize:operand", exact=False)
                    if o != "alias":
                        p.value(name, K1, A1, scale_of(w1, U1), o + ">normalize:operand2", exact=False)
        else:
            c = _SCALARS[v["c"]]
            name = "ktensor.__mul__" if op == "mul" else "ktensor.__rmul__"
            var = type(c).__name__
            ok, K2 = p.call(name, (lambda: K * c) if op == "mul" else (lambda: c * K), var)
            if ok:
                if type(K2).__name__ != "ktensor":
                    p.fail(name, "wrong_type", type(K2).__name__, var)
                elif p.wf(name, K2, shape, R, var):
                    p.params(name, K2, c * w, U, var)
                    p.value(name, K2, c * A, scale * max(1.0, abs(c)), var, exact=True)
                    # depth 2: re-parameterise the product in place; the operand must keep denoting A
                    ok2, _ = p.call("ktensor.normalize", lambda: K2.normalize(), var + ">normalize")
                    if ok2:
                        p.value(name, K, A, scale, var + ">normalize:operand", exact=False)
                        p.value(name, K2, c * A, scale * max(1.0, abs(c)), var + ">normalize:result", exact=False)


# ---------------------------------------------------------------------------
# fixsigns against a reference


def _flip_patterns(N, RB, mode):
    pats = list(itertools.product((1, -1), repeat=N))
    if mode == "full":
        return [list(map(list, fl)) for fl in itertools.product(pats, repeat=RB)]
    out = []
    for i in range(len(pats)):
        out.append([list(pats[i])] * RB)
        st = [list(pats[(i + 3 * r + r * r) % len(pats)]) for r in range(RB)]
        if st not in out:
            out.append(st)
    return out


def _ref_params(h, kind, RB, flips):
    if kind == "flip":
        wb, Ub = H.ktensor_parts(h)
    else:
        R = h["rank"]
        wo = [(-1.0) ** r * (1.0 + r) for r in range(R)]
        wb, Ub = H.ktensor_parts(dict(h, salt=h["salt"] + 7, weights=wo, zero_col=None))
    wb = wb[:RB].copy()
    Ub = [u[:, :RB].copy() for u in Ub]
    for r in range(RB):
        for n in range(len(Ub)):
            Ub[n][:, r] = flips[r][n] * Ub[n][:, r]
    return wb, Ub


def _run_fixsigns_ref(case, ctx):
    import pyttb as ttb

    h = case["h"]
    shape, R = tuple(h["shape"]), h["rank"]
    N = len(shape)
    kind, RB = case["ref"], case["RB"]
    w, U = H.ktensor_parts(h)
    A = rm.kruskal(w, U)
    scale = scale_of(w, U)
    wn, Un = ref_normalize2(w, U)
    ctx.state()
    fls = [case["flips"]] if "flips" in case else _flip_patterns(N, RB, case["flipset"])
    variant = kind + ("" if RB == R else "+fewer")
    name = "ktensor.fixsigns(other)"
    counted = False
    for flips in fls:
        wb, Ub = _ref_params(h, kind, RB, flips)
        wbn, Ubn = ref_normalize2(wb, Ub)
        Aref = rm.kruskal(wb, Ub)
        # reference-side view of what the algorithm faces (vacuity control + descriptor fields)
        negs = []
        for r in range(RB):
            s = sorted(float(Un[n][:, r] @ Ubn[n][:, r]) for n in range(N))
            k = sum(1 for x in s if x < 0)
            negs.append(k)
            if k == 0:
                ctx.flag("fixsigns_ref:none_negative")
            elif k % 2 == 0:
                ctx.flag("fixsigns_ref:even_negative")
            elif k == N:
                ctx.flag("fixsigns_ref:all_negative_odd")
            elif -s[k - 1] > s[k] + 1e-9:
                ctx.flag("fixsigns_ref:odd_flip_one_more")
            elif -s[k - 1] < s[k] - 1e-9:
                ctx.flag("fixsigns_ref:odd_flip_one_fewer")
            else:
                ctx.flag("fixsigns_ref:odd_tie")
        sub = {"check": "fixsigns_ref", "h": h, "ref": kind, "RB": RB, "flips": flips, "neg_modes": negs,
               "ndims": N}
        p = Probe(ctx, sub)
        if _nontrivial(A) and any(negs) and not counted:
            counted = True
            ctx.nontriv()
        K = H.build(h)
        Kref = ttb.ktensor([u.copy(order="F") for u in Ub], wb.copy())
        ok, ret = p.call(name, lambda: K.fixsigns(Kref), variant)
        if not ok:
            continue
        if not p.wf(name, K, shape, R, variant):
            continue
        if ret is not K:
            p.fail(name, "wrong_return", f"{type(ret).__name__}", variant)
        p.value(name, K, A, scale, variant)
        # documented: both are normalised first
        _unit_cols(p, name, variant, U, K.factor_matrices, 2, range(N))
        if not np.all(K.weights >= 0):
            p.fail(name, "negative_weight", str(K.weights.tolist()), variant)
        # alignment: signs can only be fixed in pairs, so at most one mode per component stays anti-correlated
        for r in range(RB):
            if not (wn[r] > 0 and wbn[r] > 0):
                continue  # a zero-weight component has no defined sign convention after normalisation
            s = [float(K.factor_matrices[n][:, r] @ Ubn[n][:, r]) for n in range(N)]
            left = [n for n in range(N) if s[n] < -1e-9]
            if len(left) > 1:
                p.fail(name, "not_aligned", f"component {r}: modes {left} still anti-correlated, scores {s}", variant)
        # the reference object is normalised in place (documented); it must still denote its tensor
        if p.wf(name, Kref, shape, RB, variant + ":reference"):
            p.value(name, Kref, Aref, scale_of(wb, Ub), variant + ":reference")
        ctx.outcome([K.weights] + list(K.factor_matrices))


# ---------------------------------------------------------------------------
# score against permuted / sign-flipped copies


def _pair_flips(N, RB, kind):
    """Per component list of modes to negate (always an even number)."""
    if kind == "none" or N < 2:
        return [[] for _ in range(RB)]
    if kind == "pair01":
        return [[0, 1] for _ in range(RB)]
    if kind == "pairlast":
        return [[N - 2, N - 1] for _ in range(RB)]
    if kind == "stag":
        return [sorted({j % N, (j + 1) % N}) if (j % N) != ((j + 1) % N) else [] for j in range(RB)]
    raise ValueError(kind)


def _v_score(N, R):
    out = []
    combos = [("none", True), ("none", False)]
    if N >= 2:
        combos += [("pair01", True), ("pairlast", False), ("stag", True)]
    for k in range(1, R + 1):
        for sel in itertools.permutations(range(R), k):
            for kind, pen in combos:
                out.append({"op": "score", "sel": list(sel), "flip": kind, "penalty": pen})
    out.append({"op": "score_unrelated", "penalty": True})
    out.append({"op": "score_unrelated", "penalty": False})
    return out


def _ref_score_matrix(wa, Ua, wb, Ub, penalty):
    RA, RB = len(wa), len(wb)
    S = np.ones((RA, RB))
    for n in range(len(Ua)):
        S = S * np.abs(Ua[n].T @ Ub[n])
    if penalty:
        for i in range(RA):
            for j in range(RB):
                la, lb = wa[i], wb[j]
                S[i, j] *= 1.0 if (la == 0 and lb == 0) else 1.0 - abs(la - lb) / max(abs(la), abs(lb))
    return S


def _run_score(case, ctx):
    import pyttb as ttb

    h = case["h"]
    shape, R = tuple(h["shape"]), h["rank"]
    N = len(shape)
    w, U = H.ktensor_parts(h)
    A = rm.kruskal(w, U)
    scale = scale_of(w, U)
    wn, Un = ref_normalize2(w, U)
    ctx.state()
    vs = [case["only"]] if "only" in case else _v_score(N, R)
    name = "ktensor.score"
    counted = False
    for v in vs:
        p = Probe(ctx, {"check": "score", "h": h, "only": v})
        K = H.build(h)
        pen = v["penalty"]
        if v["op"] == "score":
            sel = v["sel"]
            RB = len(sel)
            wb = w[sel].copy()
            Ub = [u[:, sel].copy() for u in U]
            for j, modes in enumerate(_pair_flips(N, RB, v["flip"])):
                for n in modes:
                    Ub[n][:, j] = -Ub[n][:, j]
            variant = "copy" if RB == R else "subset"
        else:
            ho = dict(h, salt=h["salt"] + 7, weights=[1.0 + r for r in range(R)], zero_col=None)
            wb, Ub = H.ktensor_parts(ho)
            RB = R
            sel = None
            variant = "unrelated"
        variant += "" if pen else "+nopenalty"
        Kb = ttb.ktensor([u.copy(order="F") for u in Ub], wb.copy())
        ok, res = p.call(name, lambda: K.score(Kb, weight_penalty=pen), variant)
        if not ok:
            continue
        if not (isinstance(res, tuple) and len(res) == 4):
            p.fail(name, "malformed:result", repr(res)[:200], variant)
            continue
        sc, Ka, flag, perm = res
        perm = np.asarray(perm)
        if perm.shape != (R,) or sorted(perm.tolist()) != list(range(R)):
            p.fail(name, "malformed:permutation", f"{perm.tolist()}", variant)
            continue
        if not p.wf(name, Ka, shape, R, variant):
            continue
        # second result: the receiver, normalised and permuted - still the same tensor
        p.value(name, Ka, A, scale, variant + ":model")
        if not np.all(np.abs(Ka.weights - wn[perm]) <= TOL * np.maximum(1.0, wn[perm])):
            p.fail(name, "wrong_weights", f"{Ka.weights.tolist()} want {wn[perm].tolist()}", variant + ":model")
        _unit_cols(p, name, variant + ":model", [u[:, perm] for u in U], Ka.factor_matrices, 2, range(N))
        wbn, Ubn = ref_normalize2(wb, Ub)
        S = _ref_score_matrix(wn, Un, wbn, Ubn, pen)
        sc = float(sc)
        if not (-1e-12 <= sc <= 1.0 + 1e-12):
            p.fail(name, "out_of_range", f"score {sc!r}", variant)
        # the reported score is the mean congruence of the reported matching
        want_reported = float(np.mean([S[perm[j], j] for j in range(RB)]))
        if abs(sc - want_reported) > 1e-12:
            p.fail(name, "wrong_value", f"score {sc!r} but the reported matching {perm.tolist()} has mean "
                   f"congruence {want_reported!r}", variant + ":consistency")
        if sel is not None:
            good = [j for j in range(RB) if abs(S[sel[j], j] - 1.0) <= 1e-12]
            want = len(good) / RB
            if abs(sc - want) > 1e-12:
                p.fail(name, "wrong_value", f"score {sc!r} want {want!r} (sel={sel})", variant)
            # unique matching?  every true pair scores 1 and every other pair is clearly below 1
            T = S.copy()
            for j in range(RB):
                T[sel[j], j] = -1.0
            unique = len(good) == RB and (T.size == 0 or float(np.max(T)) < 1.0 - 1e-6)
            if unique:
                if _nontrivial(A) and not counted:
                    counted = True
                    ctx.nontriv()
                ctx.flag("score:unique_matching")
                if perm[:RB].tolist() != list(sel):
                    p.fail(name, "wrong_permutation", f"{perm.tolist()} want prefix {sel}", variant)
            else:
                ctx.inadm()
        ctx.outcome([sc, perm, bool(flag)])


# ---------------------------------------------------------------------------


_REQUIRED_FLAGS = ["normalize:negative_weight", "normalize:zero_column", "fixsigns:pair_flipped",
                   "fixsigns:two_pairs_flipped",
                   "fixsigns:odd_negative", "fixsigns_ref:none_negative", "fixsigns_ref:even_negative",
                   "fixsigns_ref:all_negative_odd", "fixsigns_ref:odd_flip_one_more",
                   "fixsigns_ref:odd_flip_one_fewer", "score:unique_matching", "tolist:unit_weights"]


def finalize(tier, seed, totals):
    for f in _REQUIRED_FLAGS:
        if f not in totals.flags:
            totals.caps_hit.append(f"vacuous: switch side '{f}' never reached")
